// C07 — incomplete package data is always reported as "not enough bytes".
package c07

import (
	"context"
	"encoding/json"
	"errors"
	"fmt"
	"math"
	"reflect"
	"sort"
	"testing"
	"time"

	"github.com/SAP/go-dblib/asetypes"
	"github.com/SAP/go-dblib/tds"
	"pgregory.net/rapid"
	"verif/internal/peer"
	"verif/internal/pkggen"
	rc "verif/internal/refcodec"
	"verif/internal/valgen"
	"verif/internal/vh"
)

const (
	exhaustiveLen = 300 // encodings up to this length: every proper prefix
	randomCuts    = 50  // longer encodings: this many additional random cuts
	bytePacketMax = 64  // prefixes up to this length are also fed as 1-byte packets
	channelMax    = 120 // encodings up to this length are also fed through a Channel
	maxPacketData = 65535 - tds.PacketHeaderSize
)

func TestMain(m *testing.M) {
	vh.Rule(fmt.Sprintf("rapid, per package kind (the 30 kinds of LookupPackage in narrow and wide variants as in C06, rows/params over all data types with their format in force, ORDERBY after a row format; plus CURCLOSE and OPTIONCMD which are parsers not reachable from LookupPackage and are constructed directly, plus KEY with every data type that has a 0- or 1-byte length prefix): a package description is drawn (half of the cases with the short-strings context so that most encodings stay below %d bytes), encoded by the independent reference codec, and then EVERY proper prefix 1 <= cut < len of the encoding of the package under test is evaluated; for encodings longer than %d bytes: every cut up to %d, every field boundary of the reference encoding -1/+0/+1 and %d cuts drawn from a seed that is part of the case. Every prefix is fed (1) as one packet behind the preceding packages into a real tds.PacketQueue (the preceding packages are consumed by the library first), (2) for prefixes <= %d bytes as 1-byte packets, (3) for kinds known to LookupPackage and encodings <= %d bytes through Channel.WritePacket of a hooked Conn as a prefix packet and a remainder packet with EOM. A prefix evaluation is non-trivial when the cut lies strictly inside a field of the reference encoding (not between two fields); distinct by (kind, field kind token/length/count/string/value/fixed, index of the field, position of the cut in the field first/mid/last, field length class); labels pair:<kind>/<field kind> list the pairs hit, labels cuttable:<kind>/<field kind> the pairs that exist in a generated encoding with a field of 2 or more bytes (a 1-byte field such as the token cannot be cut inside)", exhaustiveLen, exhaustiveLen, exhaustiveLen, randomCuts, bytePacketMax, channelMax))
	vh.Assume("the reference codec (my reading of the TDS 5.0 token layouts, shared with C06) defines what a valid encoding is and where its fields begin and end; only valid encodings are cut (a LANGUAGE with a length field < 1 and unknown tokens handled by TokenlessPackage are out of scope); the complete encoding must parse (C06's domain) - a complete encoding that is rejected is reported under its own class; KEY is laid out as data type dependent raw bytes with a 1-byte length for the variable-length types (text/image and the 4-byte-prefixed types are not generated for KEY); packages are compared with reflect.DeepEqual except that float members are compared by bit pattern (NaN)")
	vh.Rule("also: large packages (row / parameter with a LONGBINARY or LONGCHAR value, wide row format with hundreds of columns; 1 KB..300 KB, 1 MB in the thorough tier) in packets of 100..1016 body bytes: after every packet nothing of a package is delivered and no error queued before its last byte; then exactly the sent fields")
	vh.Rule("also: a header-only control packet (PROTACK) between the two halves; the two halves delivered through the connection's reader with one or two empty packets between them")
	vh.Main(m, "C07")
}

// Case is one (package, prefix length) pair. Cut == 0 stands for the whole sweep over
// the prefix lengths of the package (what the generator runs); a failing sweep is
// reported with the failing Cut filled in, so a replay file names one prefix.
type Case struct {
	// Pkgs is an optional format followed by the package under test (the last one).
	Pkgs []rc.P `json:"pkgs,omitempty"`
	// Key, if set, is the value of a KEY package under test (Pkgs is empty).
	Key *rc.V `json:"key,omitempty"`
	// Cut is the prefix length of the last package's encoding, 1 <= Cut < len.
	Cut int `json:"cut"`
	// Seed selects the random cuts of encodings longer than exhaustiveLen.
	Seed uint64 `json:"seed"`

	swept bool // the generator already ran the sweep and it passed
}

func class(kind, what string) string { return "C07/" + kind + "-" + what }

// prep is everything about a case that does not depend on the cut.
type prep struct {
	kind    string
	stream  []byte // preceding packages + package under test
	start   int    // offset of the token of the package under test
	n       int    // length of the encoding of the package under test
	where   []int16
	spans   []rc.Span // of the package under test, offsets relative to start
	pkgs    []rc.P
	key     *rc.V
	lastFmt *rc.Fmt
	lookup  bool        // the kind is known to LookupPackage (channel variant applies)
	full    tds.Package // the complete bytes parsed directly
}

func (p *prep) target() rc.P { return p.pkgs[len(p.pkgs)-1] }

// build constructs a fresh package object for the package under test.
func (p *prep) build() (tds.Package, error) {
	switch p.kind {
	case "key":
		return &tds.KeyPackage{DataType: asetypes.DataType(p.key.T)}, nil
	case "curclose":
		return &tds.CurClosePackage{}, nil
	case "optioncmd":
		return &tds.OptionCmdPackage{}, nil
	}
	return tds.LookupPackage(tds.Token(p.stream[p.start]))
}

func newQueue() *tds.PacketQueue { return tds.NewPacketQueue(func() int { return 65535 }) }

// addData appends b to the queue as one packet (as several if it exceeds the largest
// packet). The data is not copied: the queue only reads it.
func addData(q *tds.PacketQueue, b []byte) {
	for len(b) > 0 {
		n := len(b)
		if n > maxPacketData {
			n = maxPacketData
		}
		q.AddPacket(&tds.Packet{Header: tds.PacketHeader{MsgType: tds.TDS_BUF_RESPONSE, Length: uint16(tds.PacketHeaderSize + n)}, Data: b[:n:n]})
		b = b[n:]
	}
}

func addBytewise(q *tds.PacketQueue, b []byte) {
	for i := range b {
		q.AddPacket(&tds.Packet{Header: tds.PacketHeader{MsgType: tds.TDS_BUF_RESPONSE, Length: tds.PacketHeaderSize + 1}, Data: b[i : i+1 : i+1]})
	}
}

// consumePreceding parses the packages before the one under test the way the channel
// does and returns the last of them.
func (p *prep) consumePreceding(q *tds.PacketQueue) (tds.Package, *vh.Failure) {
	var last tds.Package
	for i := 0; i < len(p.pkgs)-1; i++ {
		k := pkggen.KindOf(p.pkgs[i])
		tok, err := q.Byte()
		if err != nil {
			return nil, vh.Failf(class(k, "complete-encoding-rejected"), "preceding %s: no token byte: %v", k, err)
		}
		pkg, err := pkggen.LibDecode(tok, last, q)
		if err != nil {
			return nil, vh.Failf(class(k, "complete-encoding-rejected"), "preceding %s does not parse: %v", k, err)
		}
		last = pkg
	}
	return last, nil
}

// attempt reads the token byte, builds a fresh package and runs ReadFrom.
func (p *prep) attempt(q *tds.PacketQueue, last tds.Package) (pkg tds.Package, err error, panicked interface{}) {
	defer func() {
		if r := recover(); r != nil {
			panicked = r
		}
	}()
	tok, err := q.Byte()
	if err != nil {
		return nil, fmt.Errorf("token byte: %w", err), nil
	}
	if tok != p.stream[p.start] {
		vh.HarnessBug("position is not at the token of the package under test: %#x != %#x", tok, p.stream[p.start])
	}
	pkg, err = p.build()
	if err != nil {
		return nil, fmt.Errorf("build: %w", err), nil
	}
	if acc, ok := pkg.(tds.LastPkgAcceptor); ok {
		if err := acc.LastPkg(last); err != nil {
			return nil, fmt.Errorf("LastPkg: %w", err), nil
		}
	}
	return pkg, pkg.ReadFrom(q), nil
}

func (p *prep) libEqual(pkg tds.Package) error {
	if p.key != nil {
		k, ok := pkg.(*tds.KeyPackage)
		if !ok {
			return fmt.Errorf("%T is not a KeyPackage", pkg)
		}
		return valgen.Match(valgen.Val{V: *p.key}, k.Value)
	}
	return pkggen.LibEqual(p.target(), p.lastFmt, pkg)
}

func prepare(c Case) (*prep, *vh.Failure) {
	p := &prep{pkgs: c.Pkgs, key: c.Key}
	if c.Key != nil {
		if len(c.Pkgs) != 0 {
			vh.HarnessBug("case with key and packages")
		}
		p.kind = "key"
		data, err := rc.Encode(*c.Key)
		if err != nil {
			vh.HarnessBug("reference encoder rejects generated key value: %v", err)
		}
		p.stream = []byte{rc.TokKey}
		p.spans = []rc.Span{{Kind: "token", Off: 0, Len: 1}}
		if rc.FixedSize(c.Key.T) == 0 {
			if len(data) > 255 {
				vh.HarnessBug("key value longer than 255 bytes")
			}
			p.spans = append(p.spans, rc.Span{Kind: "length", Off: 1, Len: 1})
			p.stream = append(p.stream, byte(len(data)))
		}
		p.spans = append(p.spans, rc.Span{Kind: "value", Off: len(p.stream), Len: len(data)})
		p.stream = append(p.stream, data...)
	} else {
		if len(c.Pkgs) == 0 {
			vh.HarnessBug("empty case")
		}
		stream, offs, spans, err := rc.EncodeStream(c.Pkgs)
		if err != nil {
			vh.HarnessBug("reference encoder rejects generated package: %v", err)
		}
		p.stream, p.start = stream, offs[len(offs)-2]
		for _, s := range spans {
			if s.Off >= p.start {
				p.spans = append(p.spans, rc.Span{Kind: s.Kind, Off: s.Off - p.start, Len: s.Len})
			}
		}
		for _, x := range c.Pkgs {
			if x.Fmt != nil {
				p.lastFmt = x.Fmt
			}
		}
		p.kind = pkggen.KindOf(p.target())
		p.lookup = p.kind != "curclose" && p.kind != "optioncmd"
	}
	p.n = len(p.stream) - p.start
	// where[i]: index of the span the cut i lies strictly inside, -1 between spans
	p.where = make([]int16, p.n+1)
	for i := range p.where {
		p.where[i] = -1
	}
	end := 0
	for si, s := range p.spans {
		if s.Off != end {
			vh.HarnessBug("spans of the reference encoding of %s are not contiguous at %d", p.kind, s.Off)
		}
		end = s.Off + s.Len
		for i := s.Off + 1; i < s.Off+s.Len; i++ {
			p.where[i] = int16(si)
		}
	}
	if end != p.n {
		vh.HarnessBug("spans of the reference encoding of %s cover %d of %d bytes", p.kind, end, p.n)
	}
	// the complete bytes, parsed directly
	q := newQueue()
	addData(q, p.stream)
	last, f := p.consumePreceding(q)
	if f != nil {
		return nil, f
	}
	pkg, err, pan := p.attempt(q, last)
	if pan != nil {
		return nil, vh.Failf(class(p.kind, "complete-encoding-rejected"), "%s: panic parsing the complete encoding (%d bytes): %v", p.kind, p.n, pan)
	}
	if err != nil {
		return nil, vh.Failf(class(p.kind, "complete-encoding-rejected"), "%s: the complete encoding (%d bytes, % x…) does not parse: %v", p.kind, p.n, head(p.stream[p.start:]), err)
	}
	if !q.AllPacketsConsumed() {
		return nil, vh.Failf(class(p.kind, "complete-encoding-rejected"), "%s: parsing the complete encoding (%d bytes) leaves bytes unconsumed", p.kind, p.n)
	}
	if err := p.libEqual(pkg); err != nil {
		return nil, vh.Failf(class(p.kind, "complete-encoding-rejected"), "%s: the complete encoding is parsed with wrong fields: %v", p.kind, err)
	}
	p.full = pkg
	return p, nil
}

func head(b []byte) []byte {
	if len(b) > 32 {
		return b[:32]
	}
	return b
}

// spanAt names the field kind a cut falls into ("boundary" between two fields).
func (p *prep) spanAt(cut int) string {
	if si := p.where[cut]; si >= 0 {
		return p.spans[si].Kind
	}
	return "boundary"
}

func (p *prep) describe(cut int) string {
	si := p.where[cut]
	if si < 0 {
		return fmt.Sprintf("%s cut after %d of %d bytes (between two fields)", p.kind, cut, p.n)
	}
	s := p.spans[si]
	return fmt.Sprintf("%s cut after %d of %d bytes (inside %s field #%d at offset %d, %d of its %d bytes present)", p.kind, cut, p.n, s.Kind, si, s.Off, cut-s.Off, s.Len)
}

// evalQueue feeds the prefix into a real PacketQueue (as one packet or as 1-byte
// packets), demands ErrNotEnoughBytes, then appends the remainder, rolls back the
// position and demands the same result as parsing the complete bytes directly.
func (p *prep) evalQueue(cut int, bytewise bool) *vh.Failure {
	how := "one packet"
	q := newQueue()
	if bytewise {
		how = "1-byte packets"
		addBytewise(q, p.stream[:p.start+cut])
	} else {
		addData(q, p.stream[:p.start+cut])
	}
	last, f := p.consumePreceding(q)
	if f != nil {
		return f
	}
	ip, id := q.Position()
	_, err, pan := p.attempt(q, last)
	switch {
	case pan != nil:
		return vh.Failf(class(p.kind, "panic"), "%s, %s: ReadFrom panics: %v", p.describe(cut), how, pan)
	case err == nil:
		return vh.Failf(class(p.kind, "short-read-success"), "%s, %s: ReadFrom reports success on a proper prefix", p.describe(cut), how)
	case !errors.Is(err, tds.ErrNotEnoughBytes):
		return vh.Failf(class(p.kind, "short-read-wrong-error"), "%s, %s: ReadFrom returns an error that is not ErrNotEnoughBytes: %v", p.describe(cut), how, err)
	}
	// the rest arrives, the channel rolls back and parses again with a fresh package
	addData(q, p.stream[p.start+cut:])
	q.SetPosition(ip, id)
	pkg, err, pan := p.attempt(q, last)
	if pan != nil {
		return vh.Failf(class(p.kind, "panic"), "%s, %s: ReadFrom panics on the complete bytes after the short read: %v", p.describe(cut), how, pan)
	}
	if err != nil {
		return vh.Failf(class(p.kind, "reparse-fails"), "%s, %s: after the remainder arrived and the position was rolled back parsing fails: %v", p.describe(cut), how, err)
	}
	if !q.AllPacketsConsumed() {
		return vh.Failf(class(p.kind, "reparse-differs"), "%s, %s: after the remainder arrived parsing does not consume all bytes", p.describe(cut), how)
	}
	if !samePackage(pkg, p.full) {
		return vh.Failf(class(p.kind, "reparse-differs"), "%s, %s: parsing after a short read gives %v, parsing the complete bytes directly gives %v", p.describe(cut), how, clip(pkg), clip(p.full))
	}
	if err := p.libEqual(pkg); err != nil {
		return vh.Failf(class(p.kind, "reparse-differs"), "%s, %s: parsing after a short read gives wrong fields: %v", p.describe(cut), how, err)
	}
	return nil
}

func clip(x interface{}) string {
	s := fmt.Sprintf("%v", x)
	if len(s) > 300 {
		return s[:300] + "…"
	}
	return s
}

// delivered: ENVCHANGE and EED with the info bit are handled inside the channel.
func delivered(x rc.P) bool {
	return x.Env == nil && !(x.EED != nil && x.EED.Status&rc.EEDInfo != 0)
}

func drain(ctx context.Context, ch *tds.Channel) ([]tds.Package, error) {
	var out []tds.Package
	for {
		pkg, err := ch.NextPackage(ctx, false)
		if errors.Is(err, tds.ErrNoPackageReady) {
			return out, nil
		}
		if err != nil {
			return out, err
		}
		out = append(out, pkg)
		if len(out) > 16 {
			return out, fmt.Errorf("more than 16 packages delivered")
		}
	}
}

// evalChannel feeds a prefix packet and a remainder packet (EOM) through
// Channel.WritePacket of a hooked Conn.
func (p *prep) evalChannel(cut int, t tally) (f *vh.Failure) {
	defer func() {
		if r := recover(); r != nil {
			f = vh.Failf(class(p.kind, "panic"), "%s, channel: panic: %v", p.describe(cut), r)
		}
	}()
	ctx, cancel := context.WithCancel(context.Background())
	defer cancel()
	conn, _, err := tds.VerifNewConn(ctx, peer.NewPipe(), &tds.Info{ChannelPackageQueueSize: 1000}, false)
	if err != nil {
		vh.HarnessBug("VerifNewConn: %v", err)
	}
	ch, err := conn.NewChannel()
	if err != nil {
		vh.HarnessBug("NewChannel: %v", err)
	}
	packet := func(b []byte, status tds.PacketHeaderStatus) *tds.Packet {
		return &tds.Packet{Header: tds.PacketHeader{MsgType: tds.TDS_BUF_RESPONSE, Status: status, Length: uint16(tds.PacketHeaderSize + len(b))}, Data: append([]byte{}, b...)}
	}
	noError := func(when string) *vh.Failure {
		if err := ch.VerifChanErr(); err != nil {
			return vh.Failf(class(p.kind, "channel-error"), "%s, channel: %s the channel queued the error: %v", p.describe(cut), when, err)
		}
		if err := conn.VerifConnErr(); err != nil {
			return vh.Failf(class(p.kind, "channel-error"), "%s, channel: %s the connection queued the error: %v", p.describe(cut), when, err)
		}
		return nil
	}
	expect := func(when string, got []tds.Package, want []rc.P, synthetic bool) *vh.Failure {
		n := len(want)
		if synthetic {
			n++
		}
		if len(got) != n {
			cls := "channel-delivery"
			if when == "after the prefix packet" && len(got) > n {
				cls = "short-read-success"
			}
			return vh.Failf(class(p.kind, cls), "%s, channel: %s %d packages were delivered (%v), expected %d", p.describe(cut), when, len(got), clip(got), n)
		}
		for i, w := range want {
			var lf *rc.Fmt
			for _, x := range p.pkgs {
				if x.Fmt != nil {
					lf = x.Fmt
				}
			}
			if err := pkggen.LibEqual(w, lf, got[i]); err != nil {
				return vh.Failf(class(pkggen.KindOf(w), "channel-delivery"), "%s, channel: %s package %d (%s) was delivered with wrong fields: %v", p.describe(cut), when, i, pkggen.KindOf(w), err)
			}
		}
		if synthetic {
			d, ok := got[n-1].(*tds.DonePackage)
			if !ok || d.Status != tds.TDS_DONE_FINAL || d.TranState != 0 || d.Count != 0 {
				return vh.Failf(class(p.kind, "channel-delivery"), "%s, channel: %s the last package is %v, expected the synthetic final DONE", p.describe(cut), when, got[n-1])
			}
		}
		return nil
	}
	var before []rc.P
	for _, x := range p.pkgs[:len(p.pkgs)-1] {
		if delivered(x) {
			before = append(before, x)
		}
	}
	// every environment change member has to be reported exactly once, however often
	// the package had to be parsed
	envCalls := 0
	if err := ch.RegisterEnvChangeHooks(func(tds.EnvChangeType, string, string) { envCalls++ }); err != nil {
		vh.HarnessBug("RegisterEnvChangeHooks: %v", err)
	}
	wantEnv := 0
	for _, x := range p.pkgs {
		if x.Env != nil {
			wantEnv += len(x.Env.Members)
		}
	}
	if cut%2 == 1 {
		// history: the channel has already completed an earlier response (the truncated
		// attempt must behave the same on a used channel as on a fresh one)
		ch.WritePacket(packet([]byte{rc.TokDone, byte(rc.DoneCount), 0, 0, 0, 5, 0, 0, 0}, tds.TDS_BUFSTAT_EOM))
		if got, err := drain(ctx, ch); err != nil || len(got) != 2 {
			return vh.Failf(class(p.kind, "channel-delivery"), "%s, channel: the preceding complete response [DONE(COUNT)] delivered %d packages, err %v", p.describe(cut), len(got), err)
		}
	}
	// the prefix packet may carry other status bits than EOM (ATTNACK 0x02, EVENT 0x08): what
	// was received of the incomplete package has to be kept all the same
	prefixStatus := tds.PacketHeaderStatus([]byte{0, 0, 0x02, 0, 0x08, 0x0a}[cut%6])
	if prefixStatus != 0 {
		t["channel:prefix-packet-with-other-status-bits"]++
	}
	ch.WritePacket(packet(p.stream[:p.start+cut], prefixStatus))
	if f := noError("after the prefix packet"); f != nil {
		return f
	}
	got, err := drain(ctx, ch)
	if err != nil {
		return vh.Failf(class(p.kind, "channel-error"), "%s, channel: NextPackage after the prefix packet: %v", p.describe(cut), err)
	}
	if f := expect("after the prefix packet", got, before, false); f != nil {
		return f
	}
	if cut%4 == 1 {
		// the consumer owns what it was handed: it overwrites the byte slices inside the delivered
		// packages and uses their spare capacity (what append does) - the bytes of the
		// half-received package behind them are not its to touch, so they must not be reachable
		if scribble(got) > 0 {
			t["channel:consumer-overwrites-delivered-byte-slices"]++
		}
	}
	if cut%5 == 3 {
		// an empty packet (header only, no EOM) between the two halves of the package
		ch.WritePacket(packet(nil, 0))
		if f := noError("after an empty packet"); f != nil {
			return f
		}
		if got, err := drain(ctx, ch); err != nil || len(got) != 0 {
			return vh.Failf(class(p.kind, "channel-delivery"), "%s, channel: an empty packet after the prefix packet delivered %d packages (%v), err %v", p.describe(cut), len(got), clip(got), err)
		}
		t["channel:empty-packet-inside-the-package"]++
	}
	if cut%7 == 4 {
		// a header-only control packet (PROTACK) for the channel between the two halves: it is
		// handed to the consumer as it is and does not come between the package and its format
		ch.WritePacket(&tds.Packet{Header: tds.PacketHeader{MsgType: tds.TDS_BUF_PROTACK, Length: 8}})
		if f := noError("after a control packet"); f != nil {
			return f
		}
		got, err := drain(ctx, ch)
		if err != nil || len(got) != 1 {
			return vh.Failf(class(p.kind, "channel-delivery"), "%s, channel: a control packet after the prefix packet delivered %d packages (%v), err %v", p.describe(cut), len(got), clip(got), err)
		}
		if _, ok := got[0].(*tds.HeaderOnlyPackage); !ok {
			return vh.Failf(class(p.kind, "channel-delivery"), "%s, channel: a control packet after the prefix packet delivered %v", p.describe(cut), clip(got))
		}
		t["channel:control-packet-inside-the-package"]++
	}
	if cut%3 == 2 {
		// the prefix packet was the answer of a fast server: the client's call that sent the
		// request returns only now, between the truncated attempt and the complete bytes
		if err := ch.SendPackage(ctx, &tds.LanguagePackage{Cmd: "select 1"}); err != nil {
			vh.HarnessBug("SendPackage: %v", err)
		}
		t["channel:request-completes-between-prefix-and-remainder"]++
	}
	ch.WritePacket(packet(p.stream[p.start+cut:], tds.TDS_BUFSTAT_EOM))
	if f := noError("after the remainder packet"); f != nil {
		return f
	}
	got, err = drain(ctx, ch)
	if err != nil {
		return vh.Failf(class(p.kind, "channel-error"), "%s, channel: NextPackage after the remainder packet: %v", p.describe(cut), err)
	}
	var after []rc.P
	lastDelivered := rc.P{}
	if len(before) > 0 {
		lastDelivered = before[len(before)-1]
	}
	if delivered(p.target()) {
		after = append(after, p.target())
		lastDelivered = p.target()
	}
	// the channel appends a final DONE at the end of the message unless the last
	// delivered package is one
	synthetic := !(lastDelivered.Done != nil && lastDelivered.Done.Status == rc.DoneFinal)
	if f := expect("after the remainder packet", got, after, synthetic); f != nil {
		return f
	}
	if envCalls != wantEnv {
		return vh.Failf(class(p.kind, "reparse-differs"), "%s, channel: the environment change hook was called %d times for %d members", p.describe(cut), envCalls, wantEnv)
	}
	return noError("after reading the packages")
}

// samePackage is reflect.DeepEqual with floats compared by bit pattern.
func samePackage(a, b tds.Package) bool {
	if reflect.DeepEqual(a, b) {
		return true
	}
	return deepEq(reflect.ValueOf(a), reflect.ValueOf(b), 0)
}

func deepEq(a, b reflect.Value, depth int) bool {
	if depth > 40 {
		return false
	}
	if a.IsValid() != b.IsValid() {
		return false
	}
	if !a.IsValid() {
		return true
	}
	if a.Type() != b.Type() {
		return false
	}
	switch a.Kind() {
	case reflect.Ptr:
		if a.IsNil() || b.IsNil() {
			return a.IsNil() == b.IsNil()
		}
		if a.Pointer() == b.Pointer() {
			return true
		}
		return deepEq(a.Elem(), b.Elem(), depth+1)
	case reflect.Interface:
		if a.IsNil() || b.IsNil() {
			return a.IsNil() == b.IsNil()
		}
		return deepEq(a.Elem(), b.Elem(), depth+1)
	case reflect.Struct:
		for i := 0; i < a.NumField(); i++ {
			if !deepEq(a.Field(i), b.Field(i), depth+1) {
				return false
			}
		}
		return true
	case reflect.Slice:
		if a.IsNil() != b.IsNil() || a.Len() != b.Len() {
			return false
		}
		for i := 0; i < a.Len(); i++ {
			if !deepEq(a.Index(i), b.Index(i), depth+1) {
				return false
			}
		}
		return true
	case reflect.Array:
		for i := 0; i < a.Len(); i++ {
			if !deepEq(a.Index(i), b.Index(i), depth+1) {
				return false
			}
		}
		return true
	case reflect.Map:
		if a.IsNil() != b.IsNil() || a.Len() != b.Len() {
			return false
		}
		for _, k := range a.MapKeys() {
			bv := b.MapIndex(k)
			if !bv.IsValid() || !deepEq(a.MapIndex(k), bv, depth+1) {
				return false
			}
		}
		return true
	case reflect.Float32, reflect.Float64:
		return math.Float64bits(a.Float()) == math.Float64bits(b.Float())
	case reflect.Complex64, reflect.Complex128:
		return a.Complex() == b.Complex()
	case reflect.String:
		return a.String() == b.String()
	case reflect.Bool:
		return a.Bool() == b.Bool()
	case reflect.Int, reflect.Int8, reflect.Int16, reflect.Int32, reflect.Int64:
		return a.Int() == b.Int()
	case reflect.Uint, reflect.Uint8, reflect.Uint16, reflect.Uint32, reflect.Uint64, reflect.Uintptr:
		return a.Uint() == b.Uint()
	case reflect.Func, reflect.Chan, reflect.UnsafePointer:
		return a.Pointer() == b.Pointer()
	}
	return false
}

// stats of one sweep, flushed into the label histogram at its end.
type tally map[string]int

func (t tally) flush() {
	for k, n := range t {
		vh.LabelN(k, n)
	}
}

func lenClass(n int) string {
	switch {
	case n <= 2:
		return "2"
	case n <= 4:
		return "3-4"
	case n <= 8:
		return "5-8"
	case n <= 255:
		return "9-255"
	}
	return "256+"
}

// runCut evaluates one prefix in every applicable mode.
func (p *prep) runCut(cut int, t tally) (f *vh.Failure) {
	defer func() {
		if r := recover(); r != nil {
			f = vh.Failf(class(p.kind, "panic"), "%s: panic: %v", p.describe(cut), r)
		}
	}()
	if cut < 1 || cut >= p.n {
		vh.HarnessBug("cut %d is not a proper prefix of a %d byte encoding", cut, p.n)
	}
	sk := p.spanAt(cut)
	if f := p.evalQueue(cut, false); f != nil {
		return f
	}
	t["mode:one-packet"]++
	if cut <= bytePacketMax {
		if f := p.evalQueue(cut, true); f != nil {
			return f
		}
		t["mode:1-byte-packets"]++
	}
	if p.lookup && p.n <= channelMax {
		if f := p.evalChannel(cut, t); f != nil {
			return f
		}
		t["mode:channel"]++
		if cut%4 == 2 {
			if f := p.evalReader(cut, t); f != nil {
				return f
			}
		}
		if cut%7 == 5 {
			if f := p.evalPendingError(cut, t); f != nil {
				return f
			}
		}
	}
	t["prefixes"]++
	t["span:"+sk]++
	t["pair:"+p.kind+"/"+sk]++
	if si := p.where[cut]; si >= 0 {
		s := p.spans[si]
		pos := "mid"
		switch {
		case s.Len == 2:
			pos = "only"
		case cut == s.Off+1:
			pos = "first"
		case cut == s.Off+s.Len-1:
			pos = "last"
		}
		idx := int(si)
		if idx > 24 {
			idx = 24
		}
		t["nontrivial"]++
		vh.NonTrivial(fmt.Sprintf("%s|%s|%d|%s|%s", p.kind, sk, idx, pos, lenClass(s.Len)))
	}
	return nil
}

// cuts lists the prefix lengths evaluated for a case.
func (p *prep) cuts(seed uint64) []int {
	if p.n <= exhaustiveLen {
		out := make([]int, 0, p.n)
		for c := 1; c < p.n; c++ {
			out = append(out, c)
		}
		return out
	}
	set := map[int]bool{}
	for c := 1; c <= exhaustiveLen; c++ {
		set[c] = true
	}
	for _, s := range p.spans {
		for _, b := range []int{s.Off, s.Off + s.Len} {
			for d := -1; d <= 1; d++ {
				if c := b + d; c >= 1 && c < p.n {
					set[c] = true
				}
			}
		}
	}
	x := seed
	for i := 0; i < randomCuts; i++ {
		// splitmix64
		x += 0x9e3779b97f4a7c15
		z := x
		z = (z ^ (z >> 30)) * 0xbf58476d1ce4e5b9
		z = (z ^ (z >> 27)) * 0x94d049bb133111eb
		z ^= z >> 31
		set[1+int(z%uint64(p.n-1))] = true
	}
	out := make([]int, 0, len(set))
	for c := range set {
		out = append(out, c)
	}
	sort.Ints(out)
	return out
}

// sweep evaluates every selected prefix of the case; it returns the first failing cut.
func sweep(c Case) (int, *vh.Failure) {
	p, f := prepare(c)
	if f != nil {
		return 0, f
	}
	t := tally{}
	defer t.flush()
	t["kind:"+p.kind]++
	if p.n > exhaustiveLen {
		t["sweep:sampled"]++
	} else {
		t["sweep:exhaustive"]++
	}
	// fields a cut can fall strictly inside of (to compare with the pairs hit)
	for _, s := range p.spans {
		if s.Len >= 2 {
			t["cuttable:"+p.kind+"/"+s.Kind] = 1
		}
	}
	n := 0
	for _, cut := range p.cuts(c.Seed) {
		if f := p.runCut(cut, t); f != nil {
			vh.Evals(n)
			return cut, f
		}
		n++
	}
	vh.Evals(n)
	return 0, nil
}

func runCase(c Case) *vh.Failure {
	if c.swept {
		return nil
	}
	if c.Cut == 0 {
		_, f := sweep(c)
		return f
	}
	p, f := prepare(c)
	if f != nil {
		return f
	}
	t := tally{}
	defer t.flush()
	return p.runCut(c.Cut, t)
}

// keyTypes: data types generated for KEY. The text/image family has no plain data
// form and the 4-byte-prefixed types have no defined KEY layout in my reading.
var keyTypes = func() []valgen.TW {
	var out []valgen.TW
	for _, tw := range valgen.All {
		if rc.LengthPrefix(tw.T) == 4 {
			continue
		}
		out = append(out, tw)
	}
	return out
}()

func genCase(kind string) func(rt *rapid.T) Case {
	return func(rt *rapid.T) Case {
		// Small keeps strings short, so that most encodings are swept exhaustively
		ctx := &pkggen.Ctx{Small: rapid.Bool().Draw(rt, "small")}
		var c Case
		switch kind {
		case "key":
			tw := keyTypes[rapid.IntRange(0, len(keyTypes)-1).Draw(rt, "keytype")]
			v := valgen.Gen(rt, tw)
			if valgen.IsNullable(tw.T) && rapid.IntRange(0, 7).Draw(rt, "null") == 0 {
				v = valgen.Val{V: rc.V{T: tw.T, W: tw.W, Null: true, Prec: v.Prec, Scal: v.Scal}}
			}
			c.Key = &v.V
		case "row":
			fk := rapid.SampledFrom([]string{"rowfmt", "rowfmt2"}).Draw(rt, "fmtkind")
			f, r, _ := pkggen.GenWithFormat(rt, fk, ctx)
			c.Pkgs = []rc.P{f, r}
			if rapid.Bool().Draw(rt, "rowbefore") {
				// an earlier, complete row of the same result set in front of the truncated one
				// (it is delivered - and its values are the consumer's - while the next row is incomplete)
				r0 := &rc.Row{Tok: rc.TokRow}
				for _, col := range f.Fmt.Cols {
					r0.Cells = append(r0.Cells, pkggen.CellFor(rt, col))
				}
				c.Pkgs = []rc.P{f, {Row: r0}, r}
			}
		case "params":
			fk := rapid.SampledFrom([]string{"paramfmt", "paramfmt2"}).Draw(rt, "fmtkind")
			f, r, _ := pkggen.GenWithFormat(rt, fk, ctx)
			c.Pkgs = []rc.P{f, r}
		case "orderby", "orderby2":
			// ORDERBY refers to the row format in force
			f := pkggen.Gen(rt, rapid.SampledFrom([]string{"rowfmt", "rowfmt2"}).Draw(rt, "fmtkind"), ctx)
			c.Pkgs = []rc.P{f, pkggen.Gen(rt, kind, ctx)}
		default:
			c.Pkgs = []rc.P{pkggen.Gen(rt, kind, ctx)}
		}
		c.Seed = rapid.Uint64().Draw(rt, "cutseed")
		cut, f := sweep(c)
		if f != nil {
			c.Cut = cut
		} else {
			c.swept = true
			if b, err := json.Marshal(c); err == nil && len(b) < 700 {
				vh.Sample(kind, c)
			}
		}
		return c
	}
}

var kinds = append(append([]string{}, pkggen.AllKinds...), "curclose", "optioncmd", "key")

func TestPrefixes(t *testing.T) {
	for _, kind := range kinds {
		kind := kind
		t.Run(kind, func(t *testing.T) {
			vh.Check(t, "TestPrefixes/"+kind, vh.N(320, 8000), genCase(kind), runCase)
		})
	}
}

// scribble overwrites every []byte value reachable through the exported API of the delivered
// packages, including its spare capacity, and reports how many bytes it wrote.
func scribble(pkgs []tds.Package) int {
	n := 0
	hit := func(b []byte) {
		b = b[:cap(b)]
		for i := range b {
			b[i] = 0xA5
		}
		n += len(b)
	}
	fields := func(fs []tds.FieldData) {
		for _, f := range fs {
			if b, ok := f.Value().([]byte); ok {
				hit(b)
			}
		}
	}
	for _, p := range pkgs {
		switch x := p.(type) {
		case *tds.RowPackage:
			fields(x.DataFields)
		case *tds.ParamsPackage:
			fields(x.DataFields)
		case *tds.EEDPackage:
			hit(x.SQLState)
		}
	}
	return n
}

// evalPendingError: an earlier, well-formed response announced a packet size the library refuses;
// that error is still queued when the next response arrives in two packets, the first of which
// ends inside a package (the consumer is busy elsewhere and reads only afterwards). What was
// received of the incomplete package has to be kept: in the end the consumer gets everything,
// and the one error.
func (p *prep) evalPendingError(cut int, t tally) (f *vh.Failure) {
	defer func() {
		if r := recover(); r != nil {
			f = vh.Failf(class(p.kind, "panic"), "%s, channel with an unfetched error: panic: %v", p.describe(cut), r)
		}
	}()
	ctx, cancel := context.WithCancel(context.Background())
	defer cancel()
	conn, _, err := tds.VerifNewConn(ctx, peer.NewPipe(), &tds.Info{ChannelPackageQueueSize: 1000}, false)
	if err != nil {
		vh.HarnessBug("VerifNewConn: %v", err)
	}
	ch, err := conn.NewChannel()
	if err != nil {
		vh.HarnessBug("NewChannel: %v", err)
	}
	packet := func(b []byte, status tds.PacketHeaderStatus) *tds.Packet {
		return &tds.Packet{Header: tds.PacketHeader{MsgType: tds.TDS_BUF_RESPONSE, Status: status, Length: uint16(tds.PacketHeaderSize + len(b))}, Data: append([]byte{}, b...)}
	}
	prelude := []rc.P{{Env: &rc.EnvChange{Members: []rc.EnvMember{{Type: rc.EnvPackSize, New: "70000", Old: "512"}}}}, {Done: &rc.Done{Tok: rc.TokDone}}}
	body, _, _, err := rc.EncodeStream(prelude)
	if err != nil {
		vh.HarnessBug("encode: %v", err)
	}
	ch.WritePacket(packet(body, tds.TDS_BUFSTAT_EOM))
	if ch.VerifChanErrLen() == 0 {
		return nil // this tree reports the refused size some other way: nothing is pending
	}
	ch.WritePacket(packet(p.stream[:p.start+cut], 0))
	ch.WritePacket(packet(p.stream[p.start+cut:], tds.TDS_BUFSTAT_EOM))
	var got []tds.Package
	nerr := 0
	for i := 0; i < 10000; i++ {
		pkg, err := ch.NextPackage(ctx, false)
		if errors.Is(err, tds.ErrNoPackageReady) {
			// a non-waiting call may answer "nothing ready" although an error is queued (it
			// picks among what is ready): ask again as long as one is
			if ch.VerifChanErrLen() > 0 {
				continue
			}
			break
		}
		if err != nil {
			nerr++
			continue
		}
		got = append(got, pkg)
	}
	want := []rc.P{prelude[1]}
	last := prelude[1]
	for _, x := range p.pkgs {
		if delivered(x) {
			want = append(want, x)
			last = x
		}
	}
	synthetic := !(last.Done != nil && last.Done.Status == rc.DoneFinal) || len(want) == 1
	n := len(want)
	if synthetic {
		n++
	}
	if len(got) != n {
		return vh.Failf(class(p.kind, "channel-delivery"), "%s, channel with an unfetched error of an earlier response (refused packet size): %d packages were delivered (%v), expected %d", p.describe(cut), len(got), clip(got), n)
	}
	var lf *rc.Fmt
	for _, x := range p.pkgs {
		if x.Fmt != nil {
			lf = x.Fmt
		}
	}
	for i, w := range want {
		if err := pkggen.LibEqual(w, lf, got[i]); err != nil {
			return vh.Failf(class(pkggen.KindOf(w), "channel-delivery"), "%s, channel with an unfetched error of an earlier response: package %d (%s) was delivered with wrong fields: %v", p.describe(cut), i, pkggen.KindOf(w), err)
		}
	}
	if nerr != 1 {
		return vh.Failf(class(p.kind, "channel-error"), "%s, channel with an unfetched error of an earlier response: %d errors were reported, expected the one about the refused packet size", p.describe(cut), nerr)
	}
	t["channel:unfetched-error-of-an-earlier-response"]++
	return nil
}

// evalReader: the same two halves, but through the connection's reader goroutine (bytes on a
// transport), with an empty packet (header only, no EOM) between them.
func (p *prep) evalReader(cut int, t tally) (f *vh.Failure) {
	defer func() {
		if r := recover(); r != nil {
			vh.CheckHarnessPanic(r)
			f = vh.Failf(class(p.kind, "panic"), "%s, reader: panic: %v", p.describe(cut), r)
		}
	}()
	ctx, cancel := context.WithCancel(context.Background())
	pipe := peer.NewPipe()
	conn, done, err := tds.VerifNewConn(ctx, pipe, &tds.Info{ChannelPackageQueueSize: 1000, PacketReadTimeout: 2}, true)
	if err != nil {
		vh.HarnessBug("VerifNewConn: %v", err)
	}
	defer func() {
		cancel()
		pipe.Close()
		select {
		case <-done:
		case <-time.After(3 * time.Second):
		}
	}()
	ch, err := conn.NewChannel()
	if err != nil {
		vh.HarnessBug("NewChannel: %v", err)
	}
	pipe.Feed(rc.Packet{Type: rc.BufResponse, Body: p.stream[:p.start+cut]}.Bytes())
	pipe.Feed(rc.Packet{Type: rc.BufResponse}.Bytes())
	if cut%8 == 2 {
		pipe.Feed(rc.Packet{Type: rc.BufResponse}.Bytes())
	}
	pipe.Feed(rc.Packet{Type: rc.BufResponse, Status: rc.StatEOM, Body: p.stream[p.start+cut:]}.Bytes())
	if !pipe.WaitDrained(10 * time.Second) {
		return vh.Failf(class(p.kind, "reader-stuck"), "%s, reader: the reader did not come back for more input within 10 s", p.describe(cut))
	}
	got, err := drain(ctx, ch)
	if err != nil {
		return vh.Failf(class(p.kind, "channel-error"), "%s, reader (prefix packet, empty packet, remainder): %v", p.describe(cut), err)
	}
	if e := ch.VerifChanErr(); e != nil {
		return vh.Failf(class(p.kind, "channel-error"), "%s, reader (prefix packet, empty packet, remainder): the channel queued the error: %v", p.describe(cut), e)
	}
	var want []rc.P
	for _, x := range p.pkgs {
		if delivered(x) {
			want = append(want, x)
		}
	}
	n := len(want)
	if !(n > 0 && want[n-1].Done != nil && want[n-1].Done.Status == rc.DoneFinal) {
		n++ // the final DONE the channel supplies
	}
	if len(got) != n {
		return vh.Failf(class(p.kind, "channel-delivery"), "%s, reader (prefix packet, empty packet, remainder): %d packages were delivered (%v), expected %d", p.describe(cut), len(got), clip(got), n)
	}
	var lf *rc.Fmt
	for _, x := range p.pkgs {
		if x.Fmt != nil {
			lf = x.Fmt
		}
	}
	for i, w := range want {
		if err := pkggen.LibEqual(w, lf, got[i]); err != nil {
			return vh.Failf(class(pkggen.KindOf(w), "channel-delivery"), "%s, reader (prefix packet, empty packet, remainder): package %d (%s) was delivered with wrong fields: %v", p.describe(cut), i, pkggen.KindOf(w), err)
		}
	}
	t["mode:reader-with-empty-packet-between"]++
	return nil
}
