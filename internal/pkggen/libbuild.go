package pkggen

import (
	"github.com/SAP/go-dblib/asetypes"
	"github.com/SAP/go-dblib/tds"
	rc "verif/internal/refcodec"
	"verif/internal/valgen"
)

// Build constructs the library package for a description through the exported API
// (struct literals with exported fields, New* constructors, setters). ok is false
// where the exported API cannot express the package (unexported members such as the
// wide flag of CURINFO3, column lists, formats with arbitrary max length).
func Build(p rc.P) (tds.Package, bool) {
	switch {
	case p.Done != nil:
		if p.Done.Tok != rc.TokDone {
			return nil, false // DONEPROC/DONEINPROC are aliases without an own writer
		}
		return &tds.DonePackage{Status: tds.DoneState(p.Done.Status), TranState: tds.TransState(p.Done.Tran), Count: p.Done.Count}, true
	case p.EED != nil:
		d := p.EED
		return &tds.EEDPackage{MsgNumber: d.MsgNumber, State: d.State, Class: d.Class, SQLState: append([]byte{}, d.SQLState...), Status: tds.EEDStatus(d.Status),
			TranState: d.Tran, Msg: d.Msg, ServerName: d.Server, ProcName: d.Proc, LineNr: d.Line}, true
	case p.Err != nil:
		d := p.Err
		return &tds.ErrorPackage{ErrorNumber: d.Number, State: d.State, Class: d.Class, ErrorMsg: d.Msg, ServerName: d.Server, ProcName: d.Proc, LineNr: d.Line}, true
	case p.LoginAck != nil:
		d := p.LoginAck
		v, _ := tds.NewVersion(d.Version[:])
		pv, _ := tds.NewVersion(d.ProgVer[:])
		return &tds.LoginAckPackage{Length: uint16(1 + 4 + 1 + len(d.Name) + 4), Status: tds.LoginAckStatus(d.Status), Version: v, NameLength: uint8(len(d.Name)), ProgramName: d.Name, ProgramVersion: pv}, true
	case p.Msg != nil:
		return tds.NewMsgPackage(tds.TDSMsgStatus(p.Msg.Status), tds.TDSMsgId(p.Msg.ID)), true
	case p.Lang != nil:
		return &tds.LanguagePackage{Status: tds.LanguageStatus(p.Lang.Status), Cmd: p.Lang.Cmd}, true
	case p.Logout != nil:
		return &tds.LogoutPackage{Options: *p.Logout}, true
	case p.Dyn != nil:
		d := tds.NewDynamicPackage(p.Dyn.Wide)
		d.Type, d.Status, d.ID, d.Stmt = tds.DynamicOperationType(p.Dyn.Type), tds.DynamicStatusType(p.Dyn.Status), p.Dyn.ID, p.Dyn.Stmt
		return d, true
	case p.CurDeclare != nil:
		if !p.CurDeclare.Wide || len(p.CurDeclare.Columns) != 0 {
			return nil, false
		}
		d, err := tds.NewCurDeclarePackage(p.CurDeclare.Name, p.CurDeclare.Stmt, tds.CursorDStatus(p.CurDeclare.Status), tds.CursorOption(p.CurDeclare.Options))
		return d, err == nil
	case p.CurInfo != nil:
		if p.CurInfo.Wide {
			return nil, false
		}
		d := p.CurInfo
		return &tds.CurInfoPackage{CursorID: d.ID, Name: d.Name, Command: tds.CursorCommand(d.Command), Status: tds.CursorIStatus(d.Status), RowCount: d.RowCount}, true
	case p.Cur != nil:
		d := p.Cur
		switch d.Tok {
		case rc.TokCurOpen:
			return &tds.CurOpenPackage{CursorID: d.ID, Name: d.Name, Status: tds.CursorOStatus(d.Status)}, true
		case rc.TokCurClose:
			return &tds.CurClosePackage{CursorID: d.ID, Name: d.Name, Options: tds.CursorCloseOption(d.Status)}, true
		case rc.TokCurFetch:
			return &tds.CurFetchPackage{CursorID: d.ID, Name: d.Name, Type: tds.CursorFetchType(d.Status), RowNumber: d.RowNum}, true
		case rc.TokCurDelete:
			return &tds.CurDeletePackage{CursorID: d.ID, Name: d.Name, Status: tds.CursorDeleteStatus(d.Status), TableName: d.Table}, true
		case rc.TokCurUpdate:
			return &tds.CurUpdatePackage{CursorID: d.ID, Name: d.Name, Status: tds.CursorOStatus(d.Status), TableName: d.Table, Stmt: d.Stmt}, true
		}
	case p.OptionCmd != nil:
		d := p.OptionCmd
		return &tds.OptionCmdPackage{Cmd: tds.OptionCmd(d.Cmd), Option: tds.OptionCmdOption(d.Option), OptionArg: append([]byte{}, d.Arg...)}, true
	}
	return nil, false
}

// BuildParams constructs PARAMFMT(/2) + PARAMS through the exported client API the way
// Login does (LookupFieldFmtData, setters, SetValue). Only what the exported API can
// express is set: name, status, user type, locale; max length is the type's default.
// It returns the packages and the description of what they must encode to.
func BuildParams(wide bool, vals []valgen.Val, names []string, statuses []uint32) (*tds.ParamFmtPackage, *tds.ParamsPackage, rc.Fmt, rc.Row, error) {
	tok := byte(rc.TokParamFmt)
	if wide {
		tok = rc.TokParamFmt2
	}
	f := rc.Fmt{Tok: tok}
	row := rc.Row{Tok: rc.TokParams}
	var fmts []tds.FieldFmt
	var data []tds.FieldData
	for i, v := range vals {
		ff, fd, err := tds.LookupFieldFmtData(asetypes.DataType(v.T))
		if err != nil {
			return nil, nil, f, row, err
		}
		ff.SetName(names[i])
		ff.SetStatus(uint(statuses[i]))
		fd.SetValue(valgen.ToGo(v))
		col := rc.Col{Name: names[i], Status: statuses[i], T: v.T}
		if rc.FixedSize(v.T) == 0 {
			col.MaxLen = uint32(ff.MaxLength())
		}
		f.Cols = append(f.Cols, col)
		row.Cells = append(row.Cells, rc.Cell{V: v.V})
		fmts = append(fmts, ff)
		data = append(data, fd)
	}
	return tds.NewParamFmtPackage(wide, fmts...), tds.NewParamsPackage(data...), f, row, nil
}
